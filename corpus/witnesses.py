"""
Regression witnesses for every defect that was repaired by a `fix:` commit in /repo
(DESIGN.md section 1.1).  Each function replays the concrete failing input against the
implementation imported from /repo and returns True when the *property* holds on it.

Run by every check of the owning property before anything else (a `fixed` entry of
known_findings.jsonl suppresses nothing: if the defect returns, the witness fails and the
check reports a VIOLATION with the witness as replay).

Usage:  HOME=<tmp> PYTHONPATH=/repo /venv/bin/python corpus/witnesses.py [Fnn ...]
Prints one line per witness:  Fnn <property ids> held|FAILED <detail>
"""
import contextlib
import io
import os
import sys
import tempfile
import types
import collections


def _imp():
    import cincoconfig  # noqa
    return cincoconfig


_TMPS = []


def _tmp():
    d = tempfile.mkdtemp(prefix="verifw_")
    if not _TMPS:
        import atexit
        import shutil as _sh
        atexit.register(lambda: [_sh.rmtree(x, ignore_errors=True) for x in _TMPS])
    _TMPS.append(d)
    return d


WITNESSES = {}


def witness(fid, props):
    def deco(fn):
        WITNESSES[fid] = (props, fn)
        return fn
    return deco


@witness("F1", ["C03", "C02", "C15"])
def f1():
    from cincoconfig import Schema, SecureField
    d = _tmp()
    kf = os.path.join(d, "root.key")
    s = Schema()
    s.sub.secret = SecureField(method="xor")
    c = s(key_filename=kf)
    c.load_tree({"sub": {"secret": "hunter22"}})
    ok1 = c.sub._key_filename == kf
    doc = c.dumps(format="json")
    c2 = s(key_filename=kf)
    c2.loads(doc, format="json")
    ok2 = c2.sub.secret == "hunter22"
    default = os.path.join(os.path.expanduser("~"), ".cincokey")
    ok3 = not os.path.exists(default)
    return ok1 and ok2 and ok3, "nested sub-config built from a map uses the root key file (%s %s %s)" % (ok1, ok2, ok3)


@witness("F2", ["C07"])
def f2():
    from cincoconfig.encryption import KeyFile, EncryptionError
    d = _tmp()
    p = os.path.join(d, "bad.key")
    with open(p, "wb") as fp:
        fp.write(b"12345")
    k = KeyFile(p)
    outcomes = []
    for _ in range(3):
        try:
            with k as ctx:
                ctx.encrypt("x", method="xor")
            outcomes.append("ok")
        except EncryptionError:
            outcomes.append("enc")
        except Exception as e:  # noqa
            outcomes.append(type(e).__name__)
    return outcomes == ["enc"] * 3, "5-byte key file rejected on every open: %s" % outcomes


@witness("F3", ["C16"])
def f3():
    from cincoconfig import Schema, BoolField, IntField, generate_argparse_parser, cmdline_args_override, is_value_defined
    s = Schema()
    s.flag = BoolField(default=True)
    s.n = IntField(default=3)
    c = s()
    p = generate_argparse_parser(s)
    cmdline_args_override(c, p.parse_args([]))
    return c.flag is True and not is_value_defined(c, "flag"), "empty command line leaves bool fields alone: flag=%r" % c.flag


@witness("F4", ["C20"])
def f4():
    from cincoconfig import Schema, instance_method
    from cincoconfig.stubs import generate_stub
    s = Schema()

    @instance_method(s, "m")
    def m(cfg, a: int) -> int:
        return a
    buf = io.StringIO()
    with contextlib.redirect_stdout(buf):
        generate_stub(s, "X")
    return buf.getvalue() == "", "generate_stub printed %r" % buf.getvalue()


@witness("F5", ["C10"])
def f5():
    from cincoconfig import Schema, ListField, StringField
    item = Schema()
    item.pw = StringField(sensitive=True)
    s = Schema()
    s.items = ListField(item)
    c = s()
    c.items = [{"pw": "topsecret"}]
    t = c.to_tree(sensitive_mask="*")
    return t["items"][0]["pw"] == "*********", "sensitive field of a config held in a list: %r" % (t,)


@witness("F6", ["C01", "C17"])
def f6():
    from cincoconfig import Schema, DictField, StringField, IntField
    s = Schema()
    s.d = DictField(StringField(), IntField())
    c = s()
    c.d = {"a": 1}
    try:
        c.d |= {"b": "notanint"}
        raised = False
    except ValueError:
        raised = True
    c.d |= {"k": "7"}
    ok = raised and c.d.get("k") == 7 and "b" not in c.d and type(c.d).__name__ == "DictProxy"
    return ok, "|= validates: raised=%s d=%r" % (raised, dict(c.d))


@witness("F7", ["C17"])
def f7():
    from cincoconfig import Schema, DictField, StringField, IntField
    s = Schema()
    s.d = DictField(StringField(), IntField())
    c = s()
    c.d = {"a": 1}
    r1 = c.d.setdefault("a", 5)
    r2 = c.d.setdefault("b", "6")
    return r1 == 1 and r2 == 6, "setdefault returns %r %r" % (r1, r2)


@witness("F8", ["C17"])
def f8():
    from cincoconfig import Schema, ListField, IntField
    s = Schema()
    s.l = ListField(IntField())
    c = s()
    c.l = [1, 2, 3]
    c.l[0:2] = iter(["7", 8])
    ok1 = list(c.l) == [7, 8, 3]

    class Idx:
        def __index__(self):
            return 2
    c.l[Idx()] = "9"
    ok2 = list(c.l) == [7, 8, 9]
    return ok1 and ok2, "slice assignment from an iterator / __index__ object: %r" % list(c.l)


@witness("F10", ["C05"])
def f10():
    from cincoconfig import IPv4NetworkField
    f = IPv4NetworkField(max_prefix_len=0)
    try:
        f.validate(None, "10.0.0.0/8")
        r = "accepted"
    except ValueError:
        r = "rejected"
    g = IPv4NetworkField(min_prefix_len=0)
    ok2 = g.validate(None, "0.0.0.0/0") == "0.0.0.0/0"
    return r == "rejected" and ok2, "max_prefix_len=0 with /8: %s" % r


@witness("F11", ["C05", "C01"])
def f11():
    from cincoconfig import FloatField
    f = FloatField(min=0, max=10)
    try:
        f.validate(None, float("nan"))
        r = "accepted"
    except ValueError:
        r = "rejected"
    return r == "rejected", "NaN against bounds [0,10]: %s" % r


@witness("F12", ["C05", "C01"])
def f12():
    from cincoconfig import HostnameField
    f = HostnameField()
    out = []
    for v in ("host\n", "nb!\n"):
        try:
            f.validate(None, v)
            out.append("accepted")
        except ValueError:
            out.append("rejected")
    return out == ["rejected", "rejected"], "hostname with trailing newline: %s" % out


@witness("F14", ["C02", "C05"])
def f14():
    from cincoconfig import Schema, ListField, DictField, BytesField, StringField, SecureField, ChallengeField
    d = _tmp()
    s = Schema()
    s.bl = ListField(BytesField())
    s.bd = DictField(StringField(), BytesField(encoding="hex"))
    s.sl = ListField(SecureField(method="xor"))
    s.cl = ListField(ChallengeField())
    c = s(key_filename=os.path.join(d, "k"))
    c.bl = [b"\x00\x01", b"abc"]
    c.bd = {"k": b"\xff"}
    c.sl = ["s3cret!"]
    c.cl = ["pw"]
    doc = c.dumps(format="json")
    c2 = s(key_filename=os.path.join(d, "k"))
    try:
        c2.loads(doc, format="json")
    except Exception as e:  # noqa
        return False, "reload failed: %r" % (e,)
    ok = (list(c2.bl) == [b"\x00\x01", b"abc"] and dict(c2.bd) == {"k": b"\xff"}
          and list(c2.sl) == ["s3cret!"] and c2.cl[0].salt == c.cl[0].salt and c2.cl[0].digest == c.cl[0].digest)
    return ok, "typed containers of encoded items reload: %r %r %r" % (list(c2.bl), dict(c2.bd), list(c2.sl))


@witness("F15", ["C03", "C02"])
def f15():
    from cincoconfig import Schema, SecureField
    d = _tmp()
    s = Schema()
    s.sub.secret = SecureField(method="xor")
    c = s(key_filename=os.path.join(d, "k1"))
    c.sub.secret = "abcdefgh"
    c.dumps(format="json")
    c._key_filename = os.path.join(d, "k2")
    c.dumps(format="json")
    ok1 = c.sub._keyfile.filename == os.path.join(d, "k2")
    ok2 = os.path.exists(os.path.join(d, "k2"))
    return ok1 and ok2, "child follows a re-assigned root key file: %s %s" % (ok1, ok2)


@witness("F16", ["C15"])
def f16():
    from cincoconfig import Schema, ListField, DictField, StringField, IntField, make_type, ValidationError
    item = Schema()
    item.d = DictField(StringField(), IntField())
    s = Schema()
    s.items = ListField(item)
    s.sub.d = DictField(StringField(), IntField())
    c = s()
    paths = []
    try:
        c.items = [{"d": {}}, {"d": {"k": "bad"}}]
    except ValidationError as e:
        paths.append(e.ref_path)
    try:
        c.sub.d = {"z": "bad"}
    except ValidationError as e:
        paths.append(e.ref_path)
    return paths == ["items[1].d[k]", "sub.d[z]"], "dict entry error paths: %r" % paths


@witness("F17", ["C15"])
def f17():
    from cincoconfig import Schema, ListField, IntField, make_type, ValidationError
    its = Schema()
    its.n = IntField()
    T = make_type(its, "T")
    s = Schema()
    s.items = ListField(T)
    c = s()
    c.items = [{"n": 1}, {"n": 1}]
    try:
        c.items[1].n = "bad"
        p = None
    except ValidationError as e:
        p = e.ref_path
    return p == "items[1].n", "second of two equal items reports %r" % p


@witness("F18", ["C15"])
def f18():
    from cincoconfig import Schema, IntField, ValidationError
    s = Schema()
    s.sub.inner.n = IntField()
    c = s()
    try:
        c.loads(b'{"sub": "str"}', format="json")
        r = "ok"
    except ValidationError:
        r = "ValidationError"
    except Exception as e:  # noqa
        r = type(e).__name__
    return r == "ValidationError", "string where a sub-configuration is declared, via loads: %s" % r


@witness("F19", ["C15", "C18"])
def f19():
    from cincoconfig import Schema, IncludeField, IntField, ValidationError
    d = _tmp()
    s = Schema()
    s.inc = IncludeField(startdir=d)
    s.n = IntField()
    c = s()
    try:
        c.loads(b'{"inc": "missing.json", "n": 1}', format="json")
        r = ("ok", None)
    except ValidationError as e:
        r = ("ValidationError", e.ref_path)
    except Exception as e:  # noqa
        r = (type(e).__name__, None)
    return r == ("ValidationError", "inc"), "missing include file: %r" % (r,)


@witness("F21", ["C20"])
def f21():
    from cincoconfig import Schema, IntField, make_type
    from cincoconfig.stubs import generate_stub
    import ast
    its = Schema()
    its.n = IntField()
    T = make_type(its, "T")
    s = Schema()
    s.t = T
    try:
        out = generate_stub(s, "X")
        ast.parse(out)
        r = "ok"
    except Exception as e:  # noqa
        r = type(e).__name__
    return r == "ok", "stub for a schema with a config-type field: %s" % r


@witness("F28", ["C15"])
def f28():
    from cincoconfig import Schema, IntField, make_type, ValidationError
    its = Schema()
    its.n = IntField()
    T = make_type(its, "T")
    s = Schema()
    s.ct = T
    c = s()
    try:
        c.ct.n = "bad"
        p = None
    except ValidationError as e:
        p = e.ref_path
    return p == "ct.n", "default-built config-type instance reports %r" % p


@witness("F30", ["C13"])
def f30():
    from cincoconfig import Schema, ListField, DictField
    s = Schema()
    s.l = ListField(DictField(), default=[{"a": 1}])
    s.u = ListField(default=[[1]])
    s.d = DictField(default={"k": [1]})
    a = s()
    b = s()
    a.l[0]["a"] = 2
    a.u[0].append(2)
    a.d["k"].append(2)
    ok = (b.l[0] == {"a": 1} and b.u[0] == [1] and b.d["k"] == [1]
          and s._fields["l"].default == [{"a": 1}] and s._fields["u"].default == [[1]]
          and s._fields["d"].default == {"k": [1]})
    return ok, "nested default containers are per-configuration: %r %r %r" % (list(b.l), list(b.u), dict(b.d))


@witness("F31", ["C17"])
def f31():
    from cincoconfig import Schema, DictField, StringField, IntField
    s = Schema()
    s.d = DictField(StringField(), IntField())
    c = s()
    c.d = {}
    try:
        c.d.update(collections.UserDict({"ab": "1"}))
        c.d.update(types.MappingProxyType({"cd": 2}))
        r = dict(c.d)
    except Exception as e:  # noqa
        r = type(e).__name__
    return r == {"ab": 1, "cd": 2}, "update from a non-dict mapping: %r" % (r,)


@witness("F32", ["C20"])
def f32():
    from typing import Optional, List
    from cincoconfig import Schema, instance_method
    from cincoconfig.stubs import generate_stub
    import ast
    s = Schema()

    @instance_method(s, "m")
    def m(cfg, a: Optional[int], b: List[str]) -> Optional[int]:
        return a
    try:
        out = generate_stub(s, "X")
        ast.parse(out)
        r = "ok" if "->" in out else "return annotation dropped"
    except Exception as e:  # noqa
        r = type(e).__name__
    return r == "ok", "typing constructs in a method signature: %s" % r


@witness("F38", ["C05", "C01"])
def f38():
    from cincoconfig import Schema, SecureField
    s = Schema()
    s.secret = SecureField()
    c = s()
    try:
        c.secret = 5
        r = "accepted"
    except ValueError:
        r = "rejected"
    return r == "rejected", "SecureField given an int: %s" % r


@witness("F39", ["C05"])
def f39():
    from cincoconfig import ListField
    f = ListField()
    v = f.validate(None, (1, 2))
    return type(v) is list and f.to_python(None, f.to_basic(None, v)) == v, "untyped list field given a tuple stores %r" % (v,)


@witness("F41", ["C11", "C02"])
def f41():
    from cincoconfig import Schema, SecureField
    s = Schema()
    s.secret = SecureField(required=True)
    c = s()
    try:
        c.secret = ""
        r = "accepted"
    except ValueError:
        r = "rejected"
    return r == "rejected", "required SecureField given the empty string: %s" % r


@witness("F43", ["C17"])
def f43():
    from cincoconfig import Schema, DictField, StringField, IntField, make_type
    its = Schema()
    its.d = DictField(StringField(), IntField())
    T = make_type(its, "T")
    a = T(d={"a": 1})
    b = T(d={"a": 1})
    return (a.d == b.d) and not (a.d != b.d) and a == b, "equal typed dicts of different configurations: == %r, != %r" % (a.d == b.d, a.d != b.d)


@witness("F44", ["C15"])
def f44():
    from cincoconfig import Schema, ListField, IntField, ValidationError
    it = Schema()
    it.n = IntField()
    s = Schema()
    s.items = ListField(it)
    paths = []
    for route in ("load", "assign"):
        c = s()
        if route == "load":
            c.load_tree({"items": [{"n": 1}, {"n": 2}]})
        else:
            c.items = [{"n": 1}, {"n": 2}]
        c.validate()
        c.items.insert(0, {"n": 0})
        try:
            c.items[1].n = "bad"
            paths.append(None)
        except ValidationError as e:
            paths.append(e.ref_path)
    return paths == ["items[1].n", "items[1].n"], "item index after load + insert: %r" % paths


@witness("F47", ["C13"])
def f47():
    from cincoconfig import Schema, ListField, DictField
    s = Schema()
    s.l = ListField(default=[(1, [2])])
    s.d = DictField(default={"k": ({"x": 1},)})
    a = s()
    b = s()
    a.l[0][1].append(3)
    a.d["k"][0]["x"] = 2
    ok = (b.l == [(1, [2])] and s._fields["l"].default == [(1, [2])]
          and b.d == {"k": ({"x": 1},)} and s._fields["d"].default == {"k": ({"x": 1},)})
    return ok, "containers inside a tuple of a default are per-configuration: %r %r" % (list(b.l), dict(b.d))


@witness("F48", ["C15"])
def f48():
    from cincoconfig import Schema, ListField, IntField, ValidationError
    it = Schema()
    it.n = IntField(min=0, max=10)
    s = Schema()
    s.items = ListField(it)
    paths = []
    for route in ("ctor", "attr", "append", "load"):
        try:
            if route == "ctor":
                s(items=[{"n": 50}])
            elif route == "attr":
                s().items = [{"n": 50}]
            elif route == "append":
                c = s()
                c.items = []
                c.items.append({"n": 50})
            else:
                s().load_tree({"items": [{"n": 50}]})
            paths.append(None)
        except ValidationError as e:
            paths.append(e.ref_path)
    return paths == ["items[0].n"] * 4, "first item of a list rejected: %r" % paths


@witness("F49", ["C05", "C01"])
def f49():
    from cincoconfig import IPv4NetworkField
    out = []
    for f, x in [(IPv4NetworkField(min_len=10), "0.0.0.0/00"), (IPv4NetworkField(max_len=8), "10.1.2.3"),
                 (IPv4NetworkField(choices=["10.1.2.3"]), "10.1.2.3"), (IPv4NetworkField(regex=r"^[0-9.]+$"), "10.1.2.3"),
                 (IPv4NetworkField(max_len=11), "10.1.2.3")]:
        try:
            v = f.validate(None, x)
        except ValueError:
            out.append("rejected")
            continue
        try:
            out.append("idempotent" if f.validate(None, v) == v else "changed")
        except ValueError:
            out.append("accepted-then-rejected")
    return "accepted-then-rejected" not in out and "changed" not in out and out[-1] == "idempotent", \
        "IPv4NetworkField with string constraints: %r" % out


@witness("F50", ["C02", "C11"])
def f50():
    from cincoconfig import Schema, ListField, IntField, StringField, reset_value, validator, ValidationError
    item = Schema()
    item.need = IntField(required=True)
    item.s = StringField(default="ok")

    @validator(item)
    def no_bad(cfg):
        if cfg.s == "bad!":
            raise ValueError("bad")
    s = Schema()
    s.items = ListField(item)
    c = s()
    c.items = [{"need": 1}, {"need": 2}]
    reset_value(c.items[1], "need")
    errs1 = [e.ref_path for e in c.validate(collect_errors=True)]
    c.items[1].need = 2
    c.items[0].s = "bad!"
    try:
        c.validate()
        raised = None
    except ValidationError as e:
        raised = e.ref_path
    return errs1 == ["items[1].need"] and raised == "items[0]", "validate() reaches configurations held in lists: %r %r" % (errs1, raised)



@witness("F54", ["C03", "C15"])
def f54():
    from cincoconfig import Schema, ListField, SecureField, IntField, ValidationError
    d = _tmp()
    item = Schema()
    item.tok = SecureField(method="xor")
    item.n = IntField()
    s = Schema()
    s.items = ListField(item)
    res = []
    for route in range(5):
        a = s(key_filename=os.path.join(d, "ka%d" % route))
        b = s(key_filename=os.path.join(d, "kb%d" % route))
        a.items = [{"tok": "a-item-secret"}]
        b.items = [{"tok": "b-own"}]
        if route == 0:
            b.items = a.items
        elif route == 1:
            b.items = a.items.copy()
        elif route == 2:
            b.items = b.items + a.items
        elif route == 3:
            b.items.extend(a.items)
        else:
            b.items += a.items
        it = b.items[-1]
        out = b.dumps("json")
        c = s(key_filename=os.path.join(d, "kb%d" % route))
        try:
            c.loads(out, "json")
            loaded = c.items[-1].tok
        except Exception as e:  # noqa
            loaded = type(e).__name__
        try:
            it.n = "bad"
            path = None
        except ValidationError as e:
            path = e.ref_path
        res.append((it._parent is b, os.path.exists(os.path.join(d, "ka%d" % route)), loaded, path == "items[%d].n" % (len(b.items) - 1)))
    return all(r == (True, False, "a-item-secret", True) for r in res), "items taken over from another configuration's list: %r" % (res,)



@witness("F55", ["C10", "C02"])
def f55():
    from cincoconfig import Schema, ListField, IntField, StringField, VirtualField
    it = Schema()
    it.a = IntField(default=1)
    it.pw = StringField(sensitive=True, default="secret-pw")
    it.v = VirtualField(lambda cfg: cfg.a + 1)
    s = Schema()
    s.items = ListField(it)
    c = s()
    c.items = [{"a": 1}, {"a": 5}]
    plain = c.to_tree(virtual=True)
    masked = c.to_tree(virtual=True, sensitive_mask="#")
    novirt = c.to_tree()
    ok = (plain == {"items": [{"a": 1, "pw": "secret-pw", "v": 2}, {"a": 5, "pw": "secret-pw", "v": 6}]}
          and masked == {"items": [{"a": 1, "pw": "#########", "v": 2}, {"a": 5, "pw": "#########", "v": 6}]}
          and novirt == {"items": [{"a": 1, "pw": "secret-pw"}, {"a": 5, "pw": "secret-pw"}]})
    return ok, "virtual fields of configurations in lists, with and without a mask: %r / %r" % (plain, masked)



@witness("F57", ["C15", "C06"])
def f57():
    from cincoconfig import Schema, ListField, IntField, ValidationError, validator, make_type
    item = Schema()
    item.lo = IntField(default=0)
    item.hi = IntField(default=10)

    @validator(item)
    def lo_le_hi(cfg):     # noqa
        if cfg.lo > cfg.hi:
            raise ValueError("lo > hi")
    s = Schema()
    s.a = ListField(item)
    s.b = ListField(item)
    cfg = s()
    cfg.a = [{"lo": 1, "hi": 2}]
    cfg.b = [{"lo": 5, "hi": 6}]
    cfg.a[0].lo = 100
    moved = cfg.a[0]
    refused = later = whole = None
    try:
        cfg.b.append(moved)
    except ValidationError as e:
        refused = e.ref_path
    try:
        cfg.a[0].lo = "x"
    except ValidationError as e:
        later = e.ref_path
    try:
        cfg.validate()
    except ValidationError as e:
        whole = e.ref_path
    links = (moved._parent is cfg, moved._key, moved._container is cfg._data["a"])
    # a detached configuration refused by a list and then assigned to a sub-configuration slot
    it = Schema()
    it.n = IntField(required=True)
    IT = make_type(it, "IT")
    s2 = Schema()
    s2.one = IT
    s2.items = ListField(IT)
    c2 = s2()
    c2.items = [{"n": 1}]
    o = IT()
    try:
        c2.items.append(o)
    except ValidationError:
        pass
    c2.one = o
    sub = None
    try:
        c2.validate()
    except ValidationError as e:
        sub = e.ref_path
    got = (refused, later, whole, links, sub)
    return got == ("b[1]", "a[0].lo", "a[0]", (True, "a", True), "one.n"), \
        "a configuration refused by a typed list keeps its place: %r" % (got,)



@witness("F58", ["C19", "C04"])
def f58():
    import tempfile
    import shutil
    from cincoconfig import Schema, AnyField, DictField, StringField
    d = tempfile.mkdtemp(prefix="verif_f58_")
    res = []
    try:
        for n, key in enumerate(["a>b", "a>", "x>y>z", 'a x="1"', "a b", "ok.name", "\u00e9"]):
            s = Schema()
            s.v = AnyField()
            s.t = DictField(StringField(), StringField())
            c = s()
            c.v = {key: "v1"}
            c.t = {key: "v2"}
            path = os.path.join(d, "f%d.xml" % n)
            with open(path, "wb") as fp:
                fp.write(b"previous content")
            try:
                c.save(path, "xml")
                back = s()
                back.load(path, "xml")
                res.append((key, "saved", back.v == {key: "v1"} and dict(back.t) == {key: "v2"}))
            except Exception as e:  # noqa
                with open(path, "rb") as fp:
                    res.append((key, type(e).__name__, fp.read() == b"previous content"))
    finally:
        shutil.rmtree(d, ignore_errors=True)
    ok = all(r[2] for r in res) and [r[1] for r in res][-2:] == ["saved", "saved"] and all(r[1] != "saved" for r in res[:5])
    return ok, "map keys that are not XML names: the XML save fails and leaves the file alone, or round-trips: %r" % (res,)



@witness("P1", ["C01", "C05"])
def p1():
    """not a repaired defect: a standing probe of a corner no model covers (case maps that change the length of a string:
    the Coq field model is ASCII-only under a case transform)"""
    from cincoconfig import Schema, StringField
    bad = []
    for case, text in (("upper", "stra\u00df"), ("upper", "\ufb01x"), ("lower", "\u0130"), ("lower", "A\u0130")):
        for mx in (len(text), len(text) + 1):
            for mn in (None, len(text) + 1):
                s = Schema()
                s.f = StringField(transform_case=case, max_len=mx, min_len=mn)
                c = s()
                try:
                    c.f = text
                except ValueError:
                    continue
                v = c.f
                if len(v) > mx or (mn is not None and len(v) < mn):
                    bad.append((case, text, mn, mx, v))
                else:
                    try:
                        c.f = v
                        if c.f != v:
                            bad.append((case, text, "not idempotent", v, c.f))
                    except ValueError:
                        bad.append((case, text, "accepted result rejected again", v))
    return not bad, "strings whose case mapping changes their length against length bounds: %r" % (bad[:3],)


# ---------------------------------------------------------------------------------------------
# probes of OPEN findings that no correspondence stream reaches (operations outside the model's
# alphabet).  A probe returns (still_reproduces, detail); it never raises an alarm by itself.
# ---------------------------------------------------------------------------------------------
FINDINGS = {}


def finding(fid, props):
    def deco(fn):
        FINDINGS[fid] = (props, fn)
        return fn
    return deco


@finding("F29", ["C01"])
def p29():
    from cincoconfig import Schema, IntField, StringField
    other = Schema()
    other.unrelated = StringField(default="x")
    s = Schema()
    s.sub.n = IntField(min=0, max=10)
    c = s()
    foreign = other()
    try:
        c.sub = foreign
    except ValueError:
        return False, "a Config of a foreign schema is rejected for the sub-configuration slot"
    return c.sub is foreign and "n" not in c.sub._data, "cfg.sub = <Config of another schema> is accepted: sub holds %r" % dict(c.sub._data)


@finding("F42", ["C11"])
def p42():
    from cincoconfig import Schema, IncludeField, IntField
    s = Schema()
    s.inc = IncludeField(required=True)
    s.n = IntField(default=1)
    c = s()
    try:
        c.load_tree({"n": 2})
        errs = c.validate(collect_errors=True)
    except ValueError:
        return False, "required IncludeField without a value is rejected"
    return errs == [] and c.inc is None, "IncludeField(required=True) never given a value passes load_tree and validate()"


@finding("F37", ["C15"])
def p37():
    from cincoconfig import Schema, ListField, DictField, StringField, IntField, ValidationError
    s = Schema()
    s.sub.l = ListField(DictField(StringField(), IntField()))
    c = s()
    try:
        c.sub.l = [{"a": 1}, {"k": "bad"}]
    except ValidationError as e:
        return e.ref_path in ("[k]", "sub.[k]"), "typed dict as list item: rejected entry reports %r (the list field sub.l is not named)" % e.ref_path
    except Exception as e:  # noqa
        return False, "raised %s" % type(e).__name__
    return False, "accepted"


def main(argv):
    home = _tmp()
    os.environ["HOME"] = home
    ids = argv or sorted(WITNESSES, key=lambda s: int(s[1:]) if s[1:].isdigit() else 0)
    bad = 0
    for fid in ids:
        props, fn = WITNESSES[fid]
        try:
            held, detail = fn()
        except Exception as e:  # noqa
            held, detail = False, "witness raised %s: %s" % (type(e).__name__, e)
        print("%s %s %s %s" % (fid, ",".join(props), "held" if held else "FAILED", detail))
        bad += 0 if held else 1
    return 1 if bad else 0


if __name__ == "__main__":
    sys.exit(main(sys.argv[1:]))
