#!/usr/bin/env python3
"""one-off helper: writes coq/theories/Props/<P>.v restating lemmas (statement copied from `Check`) so that the property file holds
   only `Theorem ... Proof. exact lemma. Qed. Print Assumptions`.  usage: mkprops.py P "header comment" Imports lemma1 lemma2 ..."""
import os, re, subprocess, sys
P, header, imports = sys.argv[1], sys.argv[2], sys.argv[3]
lemmas = sys.argv[4:]
src = "From Coq Require Import ZArith NArith String List Bool.\nFrom Cinco Require Import %s.\nImport ListNotations.\nSet Printing Width 100000.\nSet Printing Depth 100000.\n" % imports
src += "".join("Check %s.\n" % l for l in lemmas)
out = subprocess.run(["coqtop", "-Q", "theories", "Cinco"], input=src, capture_output=True, text=True, cwd=os.path.join(os.path.dirname(os.path.dirname(os.path.abspath(__file__))), "coq"), timeout=300).stdout + "\nEND\n"
body = "(* Property %s — %s\n   Property theorems only: every statement is proved in the *Lemmas files. *)\nFrom Coq Require Import ZArith NArith String List Bool.\nFrom Cinco Require Import %s.\nImport ListNotations.\n\n" % (P, header, imports)
for l in lemmas:
    m = re.search(r"(?s)\b%s\s*\n?\s*: (.*?)\n(?=\S)" % re.escape(l), out)
    if not m:
        sys.exit("no type for " + l + "\n" + out[-2000:])
    ty = " ".join(m.group(1).split())
    body += "Theorem %s_%s :\n  %s.\nProof. exact %s. Qed.\nPrint Assumptions %s_%s.\n\n" % (P, l, ty, l, P, l)
open(os.path.join(os.path.dirname(os.path.dirname(os.path.abspath(__file__))), "coq/theories/Props/%s.v" % P), "w").write(body)
print("wrote", P, len(lemmas))
