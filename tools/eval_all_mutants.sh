#!/bin/bash
# evaluates every mutant under /tmp/mut/out against the current checks; one log per mutant under /tmp/mut/logs
mkdir -p /tmp/mut/logs
for p in C01 C02 C03 C04 C05 C06 C07 C08 C09 C10 C11 C12 C13 C14 C15 C16 C17 C18 C19 C20; do
  for n in 1 2 3; do
    [ -f /tmp/mut/out/$p/m$n.diff ] || continue
    VERIF_JOBS=${VERIF_JOBS:-6} /verif/tools/eval_mutant.sh $p /tmp/mut/out/$p $n > /tmp/mut/logs/$p-m$n.log 2>&1
  done
done
echo ALLDONE > /tmp/mut/logs/DONE
