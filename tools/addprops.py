#!/usr/bin/env python3
"""adds or refreshes single theorems of coq/theories/Props/<P>.v (the statement is copied from `Check`, as tools/mkprops.py does for
   whole files): an existing `Theorem P_lemma : ... Proof. exact lemma. Qed.` gets its statement replaced, a new one is appended with its
   `Print Assumptions`.  usage: addprops.py P "Imports" [--comment "text"] lemma1 lemma2 ...   (Imports: what the Check needs; lines
   `From Cinco Require Import ...` missing from the file are added before the first appended theorem)"""
import os, re, subprocess, sys
args = sys.argv[1:]
P, imports = args[0], args[1]
rest = args[2:]
comment = None
if rest and rest[0] == "--comment":
    comment = rest[1]
    rest = rest[2:]
lemmas = rest
root = os.path.dirname(os.path.dirname(os.path.abspath(__file__)))
path = os.path.join(root, "coq/theories/Props/%s.v" % P)
src = "From Coq Require Import ZArith NArith String List Bool.\nFrom Cinco Require Import %s.\nImport ListNotations.\nSet Printing Width 100000.\nSet Printing Depth 100000.\n" % imports
src += "".join("Check %s.\n" % l for l in lemmas)
out = subprocess.run(["coqtop", "-Q", "theories", "Cinco"], input=src, capture_output=True, text=True, cwd=os.path.join(root, "coq"), timeout=600).stdout + "\nEND\n"
body = open(path).read()
have = set(re.findall(r"From Cinco Require Import ([^.]*)\.", body))
have_mods = set(m for line in have for m in line.split())
need = [m for m in imports.split() if m not in have_mods]
first_new = True
for l in lemmas:
    m = re.search(r"(?s)\b%s\s*\n?\s*: (.*?)\n(?=\S)" % re.escape(l), out)
    if not m:
        sys.exit("no type for " + l + "\n" + out[-3000:])
    ty = " ".join(m.group(1).split())
    name = "%s_%s" % (P, l)
    pat = re.compile(r"(?s)Theorem %s :\n.*?\nProof\. exact %s\. Qed\." % (re.escape(name), re.escape(l)))
    block = "Theorem %s :\n  %s.\nProof. exact %s. Qed." % (name, ty, l)
    if pat.search(body):
        body = pat.sub(lambda _m: block, body, count=1)
        print("refreshed", name)
    else:
        if first_new:
            if need:
                body = body.rstrip("\n") + "\n\nFrom Cinco Require Import %s.\n" % " ".join(need)
            if comment:
                body = body.rstrip("\n") + "\n\n(* %s *)\n" % comment
            first_new = False
        body = body.rstrip("\n") + "\n\n" + block + "\nPrint Assumptions %s.\n" % name
        print("added", name)
open(path, "w").write(body)
