#!/bin/bash
# usage: merge_branch.sh Cxx   -- merges builder branch b-Cxx into main (generated files and known_findings handled)
b=$1
cd /verif || exit 2
git merge -q --no-edit b-$b >/dev/null 2>&1
git rm -q --cached coq/_CoqProject 2>/dev/null
if git diff --name-only --diff-filter=U | grep -q known_findings; then
  git checkout --ours known_findings.txt 2>/dev/null
  git show b-$b:known_findings.txt | grep "^open: property=$b " | while read -r line; do grep -qF "$line" known_findings.txt || echo "$line" >> known_findings.txt; done
  git add known_findings.txt
fi
for f in $(git diff --name-only --diff-filter=U | grep "^evidence/"); do git checkout --theirs $f; git add $f; done
git diff --name-only --diff-filter=U
git commit -qm "merge b-$b" && echo "merged $b"
