#!/usr/bin/env python3
"""re-copies from `Check` the statement of every theorem of coq/theories/Props/<P>.v that has the generated form
   `Theorem P_lemma : ... Proof. exact lemma. Qed.` (after a change of a definition's signature).  Theorems written by hand under another
   name are listed and left alone.  usage: refreshprops.py P"""
import os, re, subprocess, sys
P = sys.argv[1]
root = os.path.dirname(os.path.dirname(os.path.abspath(__file__)))
path = os.path.join(root, "coq/theories/Props/%s.v" % P)
body = open(path).read()
mods = []
for line in re.findall(r"From Cinco Require Import ([^.]*)\.", body):
    for m in line.split():
        if m not in mods:
            mods.append(m)
gen = re.findall(r"Theorem %s_(\w+) :\n.*?\nProof\. exact (\w+)\. Qed\." % P, body, re.S)
names = [a for a, b in gen if a == b]
other = [(a, b) for a, b in gen if a != b]
src = "From Coq Require Import ZArith NArith String List Bool.\nFrom Cinco Require Import %s.\nImport ListNotations.\nSet Printing Width 100000.\nSet Printing Depth 100000.\n" % " ".join(mods)
src += "".join("Check %s.\n" % l for l in names)
out = subprocess.run(["coqtop", "-Q", "theories", "Cinco"], input=src, capture_output=True, text=True, cwd=os.path.join(root, "coq"), timeout=900).stdout + "\nEND\n"
n = 0
for l in names:
    m = re.search(r"(?s)\n%s\s*\n?\s*: (.*?)\n(?=\S)" % re.escape(l), out)
    if not m:
        print("no type for", l)
        continue
    ty = re.sub(r"\bicfg\b", "cfg", " ".join(m.group(1).split()))
    name = "%s_%s" % (P, l)
    pat = re.compile(r"(?s)Theorem %s :\n.*?\nProof\. exact %s\. Qed\." % (re.escape(name), re.escape(l)))
    block = "Theorem %s :\n  %s.\nProof. exact %s. Qed." % (name, ty, l)
    new = pat.sub(lambda _m: block, body, count=1)
    if new != body:
        n += 1
    body = new
open(path, "w").write(body)
print(P, "refreshed", n, "of", len(names), "; by hand:", other)
