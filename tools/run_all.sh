#!/bin/bash
# runs every check once (tier/seed from the environment) and prints one line per property
cd /verif
for p in C01 C02 C03 C04 C05 C06 C07 C08 C09 C10 C11 C12 C13 C14 C15 C16 C17 C18 C19 C20; do
  out=$(./check $p --tier ${VERIF_TIER:-quick} 2>&1); rc=$?
  echo "$p rc=$rc $(echo "$out" | grep -v '^KNOWN-FINDING\|^WARNING\|^note:' | tail -1 | cut -c1-160)"
done
