#!/bin/bash
# usage: eval_mutant.sh <prop> <dir with mN.diff mN_demo.py> <N> [extra props to also run]
# confirms the mutant in a scratch worktree (suite baseline, demo PASS without / FAIL with) and runs ./check against it
P=$1; D=$2; N=$3; shift 3
WT=/tmp/mut/eval_$P_$N_$$
git -C /repo worktree add -q --detach $WT HEAD || exit 2
cd $WT
demo() { HOME=$(mktemp -d) PYTHONPATH=$WT timeout 120 /venv/bin/python $D/m${N}_demo.py 2>&1 | tail -1; }
echo "== $P m$N: $(python3 -c "import json;print(json.load(open('$D/m$N.json'))['summary'][:150])" 2>/dev/null)"
echo "demo without: $(demo)"
if ! git apply $D/m$N.diff 2>/dev/null && ! git apply --3way $D/m$N.diff; then echo "PATCH DOES NOT APPLY"; cd /; git -C /repo worktree remove --force $WT; exit 3; fi
echo "demo with:    $(demo)"
echo "suite: $(PYTHONPATH=$WT timeout 600 /venv/bin/python -m pytest -q -p no:cacheprovider 2>&1 | tail -1)"
for Q in $P "$@"; do
  cd /verif
  out=$(VERIF_EVIDENCE_DIR=/tmp/mut/evidence VERIF_REPLAYS_DIR=/tmp/mut/replays VERIF_REPO=$WT VERIF_JOBS=${VERIF_JOBS:-6} timeout 1500 ./check $Q --tier quick 2>&1 | grep -v "^KNOWN-FINDING\|^WARNING" | tail -2 | cut -c1-260)
  echo "check $Q: $out"
done
cd /; git -C /repo worktree remove --force $WT
