#!/usr/bin/env python3
"""mkseeded.py <round> <dest dir under /verif> <dir with Cxx/mN.diff,mN_demo.py,mN.json> <dir with Cxx-mN.log of tools/eval_mutant.sh>
writes <dest>/<Cxx-mN>/{patch.diff,demo.py,meta.json} and prints the Markdown table for DESIGN.md"""
import json
import os
import re
import shutil
import sys

rnd, dest, src, logs = sys.argv[1:5]
rows = []
for n in range(1, 21):
    p = "C%02d" % n
    for m in (1, 2, 3):
        d = os.path.join(src, p)
        if not os.path.exists(os.path.join(d, "m%d.diff" % m)):
            continue
        log = open(os.path.join(logs, "%s-m%d.log" % (p, m))).read()
        meta = json.load(open(os.path.join(d, "m%d.json" % m)))
        out = os.path.join(dest, "%s-m%d" % (p, m))
        os.makedirs(out, exist_ok=True)
        shutil.copy(os.path.join(d, "m%d.diff" % m), os.path.join(out, "patch.diff"))
        shutil.copy(os.path.join(d, "m%d_demo.py" % m), os.path.join(out, "demo.py"))

        def grab(prefix):
            for line in log.splitlines():
                if line.startswith(prefix):
                    return line[len(prefix):].strip()
            return ""
        first = ""
        mm = re.search(r"^check %s: (.*)$" % p, log, re.M)
        if mm:
            first = mm.group(1).strip()
        viol = "VIOLATION property=%s" % p in log
        nofail = "no-failing-input-found" in log
        json.dump({"id": "%s-m%d" % (p, m), "round": rnd, "property": p, "summary": meta.get("summary"), "clause": meta.get("clause"),
                   "needs": meta.get("needs"),
                   "origin": "independent sub-agent given only the property text and a scratch worktree of /repo",
                   "confirmed": {"demo_without_change": grab("demo without:"), "demo_with_change": grab("demo with:"),
                                 "suite_with_change": grab("suite:"),
                                 "how": "tools/eval_mutant.sh %s <dir> %d: scratch git worktree of /repo, `git apply patch.diff` (3-way if needed), "
                                        "demo with and without, pytest, then VERIF_REPO=<scratch> ./check %s --tier quick" % (p, m, p)},
                   "check_result": {"reported_violation": viol, "concrete_failing_input": viol and not nofail, "first_message": first[:400]}},
                  open(os.path.join(out, "meta.json"), "w"), indent=1)
        res = "MISSED" if not viol else ("caught (no-failing-input-found)" if nofail else "caught")
        rows.append("| %s-m%d | %s | %s | %s |" % (p, m, (meta.get("summary") or "")[:110].replace("|", "/"), res, first[:120].replace("|", "/")))
print("| id | change | result | first message of `./check` |\n|---|---|---|---|")
print("\n".join(rows))
